"""Developer tool: print a function of /repo (TLSVERIF_REPO) as the rules see it after normalisation.
usage: show_norm.py <qname> [<qname> ...]   e.g. recordlayer:RecordLayer.recvRecord"""
import ast, os, sys
sys.path.insert(0, os.path.dirname(os.path.dirname(os.path.abspath(__file__))))
from tlsverif.index import Index
ix = Index()
for q in sys.argv[1:]:
    if q in ix.functions:
        print(ast.unparse(ix.functions[q].node))
    else:
        print("no such function:", q, "; similar:", [k for k in ix.functions if q.split(".")[-1] in k][:8])
