"""Record which functions (and which local names in each) exist on the tree the rules were confirmed
on -> tlsverif/baseline_functions.json.  normalize.py folds back only what is new relative to it.
Run on the clean /repo after rules were (re-)confirmed."""
import ast, json, os, sys
sys.path.insert(0, os.path.dirname(os.path.dirname(os.path.abspath(__file__))))
from tlsverif.normalize import local_names
root = os.path.join(os.environ.get("TLSVERIF_REPO", "/repo"), "tlslite")
out = {}
srcs = {}
for dp, dn, fns in os.walk(root):
    dn.sort()
    for fn in sorted(fns):
        if not fn.endswith(".py"):
            continue
        path = os.path.join(dp, fn)
        rel = os.path.relpath(path, root)[:-3].replace(os.sep, ".")
        if rel.endswith("__init__"):
            rel = rel[:-len("__init__")].rstrip(".") or "__init__"
        tree = ast.parse(open(path).read())
        out[rel + ":"] = sorted({t.id for st in tree.body if isinstance(st, (ast.Assign, ast.AugAssign))
                                 for t in ast.walk(st) if isinstance(t, ast.Name) and isinstance(t.ctx, ast.Store)})
        for n in tree.body:
            if isinstance(n, ast.ClassDef):
                for c in n.body:
                    if isinstance(c, ast.FunctionDef):
                        out["%s:%s.%s" % (rel, n.name, c.name)] = sorted(set(out.get("%s:%s.%s" % (rel, n.name, c.name), [])) | set(local_names(c)))
                        srcs.setdefault("%s:%s.%s" % (rel, n.name, c.name), ast.unparse(c))
            elif isinstance(n, ast.FunctionDef):
                out["%s:%s" % (rel, n.name)] = local_names(n)
                srcs.setdefault("%s:%s" % (rel, n.name), ast.unparse(n))
json.dump(out, open(os.path.join(os.path.dirname(os.path.dirname(os.path.abspath(__file__))), "tlsverif", "baseline_functions.json"), "w"), indent=0, sort_keys=True)
# the functions' source as confirmed: lets the normaliser recognise a pure renaming of locals
json.dump(srcs, open(os.path.join(os.path.dirname(os.path.dirname(os.path.abspath(__file__))), "tlsverif", "baseline_sources.json"), "w"), indent=0, sort_keys=True)
print(len(out), "functions")
