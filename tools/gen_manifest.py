"""regenerate MANIFEST.json from the rule modules present (developer tool)."""
import importlib, json, os, sys
HERE = os.path.dirname(os.path.dirname(os.path.abspath(__file__)))
sys.path.insert(0, HERE)
NA = [
 ("C07", "quantifies over the behaviour of a second implementation (OpenSSL); nothing in the shape of this code decides what OpenSSL accepts or emits; deciding it needs executions against that implementation, which is another technique family"),
 ("C09", "numerical equality of primitives/KDFs with their standards for all inputs; the truth is in arithmetic, table contents and loop indices, not in the shape of the code; needs execution against references or a solver (other families)"),
 ("C12", "exactness of the CBC MAC-and-padding check over all bodies and padding lengths is a property of index arithmetic (pad_start, mac_start, 256-byte window); no shape rule decides it and enumerating inputs or asking a solver is another family"),
]
PENDING_REASON = "check not yet built in this session (static rules designed in DESIGN.md section 5; not claimed until implemented and triaged)"
ALL = ["C%02d" % i for i in range(1, 21)]
base = json.load(open(os.path.join(HERE, "MANIFEST.json")))
checks, na = [], [{"property_id": p, "reason": r} for p, r in NA]
served = []
for p in ALL:
    if p in dict(NA):
        continue
    path = os.path.join(HERE, "tlsverif", "rules", p.lower() + ".py")
    if not os.path.exists(path):
        na.append({"property_id": p, "reason": PENDING_REASON})
        continue
    mod = importlib.import_module("tlsverif.rules." + p.lower())
    if getattr(mod, "DISABLED", False):
        na.append({"property_id": p, "reason": mod.DISABLED})
        continue
    served.append(p)
    has_thorough = any(t == "thorough" for _, t, _ in mod.RULES) or True
    checks.append({
        "property_id": p,
        "quick_cmd": "./check %s quick" % p,
        "thorough_cmd": "./check %s thorough" % p,
        "evidence_file": "/verif/evidence/%s.json" % p,
        "replay_cmd_template": "./check replay {path}",
        "engine": "tlsverif",
        "technique": mod.TECHNIQUE,
        "level_claimed": {"category": "other",
                          "text": "Static decision of named structural clauses (necessary conditions) of the property, on every path / table row of the analysed source: " + mod.EXPLANATION,
                          "design_ref": "DESIGN.md section 5, " + p},
        "level_note": "Not decided by this check: " + mod.NOT_DECIDED + ". Trusted base: Python's ast parser; the engine's CFG builder, call resolver and explicit-raise exception model (DESIGN.md 3.3, 3.5); RFC facts embedded in rule tables. Rules: " + ", ".join(r[0] for r in mod.RULES),
    })
base["checks"] = checks
base["not_applicable"] = sorted(na, key=lambda d: d["property_id"])
base["engines"] = [{"name": "tlsverif", "path": "tlsverif/", "serves_properties": served,
                    "kind_free_text": "repository-specific static analyser (stdlib ast): source index + call resolution, statement-level CFG with explicit-raise exception edges and collapsed generator-consumption idioms, must-pass-through / effective-gate path queries, constant evaluation of class bodies, per-suite partial evaluation, lockset / alias / taint analyses"}]
base["notes"] = "All checks are static: they parse /repo/tlslite on every run and execute no library code. Exit 0 = all obligations discharged; exit 1 + VIOLATION line = a new finding; exit 2 + ANALYSIS-ERROR = the checker could not analyse (vanished anchor, floor not met). Known findings: /verif/known_findings.json."
json.dump(base, open(os.path.join(HERE, "MANIFEST.json"), "w"), indent=1)
print("checks:", served, "not_applicable:", [d["property_id"] for d in base["not_applicable"]])
