"""seeded/MATRIX.json -> seeded/WITNESSES.json: per property, the seeded changes its check detects
(these are re-applied by the thorough tier, see tlsverif/witness.py)."""
import json, os
V = os.path.dirname(os.path.dirname(os.path.abspath(__file__)))
m = json.load(open(os.path.join(V, "seeded", "MATRIX.json")))
out = {}
for r in m["results"]:
    for prop in r["fires"]:
        out.setdefault(prop, []).append(r["seed"])
for k in out:
    out[k].sort()
json.dump(dict(sorted(out.items())), open(os.path.join(V, "seeded", "WITNESSES.json"), "w"), indent=1)
print({k: len(v) for k, v in sorted(out.items())})
