"""Confirm a candidate seeded change: applies, suite passes, demo fails with / passes without.

usage: verify_seed.py <candidate dir> [<candidate dir> ...]
Writes <candidate dir>/verify.json.  Uses a scratch worktree of /repo HEAD under /tmp.
"""
import json, os, shutil, subprocess, sys, tempfile

PY = "/venv/bin/python"

def sh(cmd, cwd=None, env=None, timeout=900):
    p = subprocess.run(cmd, shell=True, cwd=cwd, env=env, stdout=subprocess.PIPE,
                       stderr=subprocess.STDOUT, timeout=timeout, text=True)
    return p.returncode, p.stdout

def verify(cand):
    res = {"candidate": cand}
    wt = tempfile.mkdtemp(prefix="seedverify-", dir="/tmp")
    os.rmdir(wt)
    rc, out = sh("git -C /repo worktree add -q --detach %s HEAD" % wt)
    if rc:
        res["error"] = out
        return res
    try:
        env = dict(os.environ, PYTHONPATH=wt, PYTHONDONTWRITEBYTECODE="1")
        demo = os.path.join(cand, "demo.py")
        rc, out = sh("%s %s" % (PY, demo), cwd="/", env=env, timeout=300)
        res["demo_clean_rc"] = rc
        res["demo_clean_tail"] = out[-400:]
        rc, out = sh("git apply --whitespace=nowarn %s" % os.path.join(cand, "patch.diff"), cwd=wt)
        if rc:
            rc, out = sh("git apply --3way --whitespace=nowarn %s" % os.path.join(cand, "patch.diff"), cwd=wt)
        res["apply_rc"] = rc
        if rc:
            res["apply_out"] = out[-400:]
            return res
        rc, out = sh("git diff --stat", cwd=wt)
        res["diffstat"] = out.strip().splitlines()[-1] if out.strip() else ""
        rc, out = sh("%s -m pytest -q -p no:cacheprovider --timeout=900 -n 4 2>&1 | tail -1" % PY, cwd=wt, env=env)
        res["suite"] = out.strip()
        rc, out = sh("%s %s" % (PY, demo), cwd="/", env=env, timeout=300)
        res["demo_mutant_rc"] = rc
        res["demo_mutant_tail"] = out[-600:]
        res["confirmed"] = (res["demo_clean_rc"] == 0 and res["demo_mutant_rc"] != 0
                            and "1714 passed" in res["suite"] and " failed" not in res["suite"] and "error" not in res["suite"])
    finally:
        sh("git -C /repo worktree remove --force %s" % wt)
        shutil.rmtree(wt, ignore_errors=True)
    return res

if __name__ == "__main__":
    for c in sys.argv[1:]:
        r = verify(os.path.abspath(c))
        json.dump(r, open(os.path.join(c, "verify.json"), "w"), indent=1)
        print(c, "CONFIRMED" if r.get("confirmed") else "NOT-CONFIRMED", r.get("suite"), r.get("demo_clean_rc"), r.get("demo_mutant_rc"), r.get("apply_rc"))
